#!/venv/bin/python
"""Fail-closed translator: a small, explicit subset of Python (read with `ast`) -> Gallina text.

    cd /verif && /venv/bin/python harness/translate.py

The second kind of tie between /verif and the library: for the branch-heavy pure functions of cellpylib the
Gallina definition `src_<name>` is REGENERATED FROM THE PYTHON SOURCE of $CELLPYLIB_REPO (or /repo) on every run
into coq/gen/GenFuns.v, and coq/GenProps/GenFunsEquiv<Cxx>.v proves it equal, for all inputs, to the hand-written
model the property theorems speak about.  A change of the source that alters behaviour then breaks a proof
obligation of the property (theorem Cxx_source_tie), not only the sampled correspondence.

FAIL CLOSED.  Every construct that is not listed below raises TranslationError; nothing is guessed.  A function
whose translation fails is left out of GenFuns.v (a comment records the error), so the theorems about it no longer
compile and the property's obligations fail.

THE SUBSET (values are Z; None is option Z exactly where the source uses it)

  statements   docstring; `x = e` (local name); `x += e`, `x -= e` (x : Z); `if/elif/else`; `return [e]`;
               `raise ValueError(<str> [% names])` (message not modelled);
               `for x in <list/tuple literal | local bound to one>:` with a body that has no return/raise and
                   assigns exactly one local w            ->  let w := fold_left (fun w x => body) [..] w
               `for g in self._grain_additions: if <test>: return <e>` (e does not mention g)
                                                          ->  if existsb (fun g => test) adds then e else <rest>
                   (the loop returns at the first element satisfying the test, and e does not depend on which one
                   it is; elements are _GrainAddition(cell_index, timestep) = ((row, col), timestep), checked
                   against the class and add_grain in the same file; g.cell_index = fst g, g.timestep = snd g)
               `self._previous_state[c] = e`              ->  let st := vec_write st c e   (top level of the body only)
               the dictionary idiom, as the last two statements of a body:
                   `if key not in self._rule_table: BODY` / `return self._rule_table[key]`
                                                          ->  match self_rule_table (k0,..,k4) with
                                                              | None => BODY | Some v => v end
                   (the dict is a partial map key -> option Z: `k in d` <-> Some, `d[k]` = the value); BODY must
                   return or raise on every path; for SDSRLoop / Evoloop BODY becomes a definition of its own
                   over (current_activity, top, right, bottom, left) and may read nothing else.
  an `if` that contains a return is translated with its continuation in both branches; an `if` without one
  becomes  let w := if c then .. else ..  (a tuple pattern for several assigned locals).
  Falling off the end of a function is `None` (the result type is then option Z).

  expressions  int literals, True/False, None; locals; + - * on Z; `^` -> Z.lxor; `% k`, `// k` with k a non-zero
               literal or class constant (Z.modulo / Z.div: floor, sign of the divisor, as Python);
               unary minus; == != < <= > >= on Z, chained comparisons (a op b op c = (a op b) && (b op c));
               == != on cells (pairs); and / or / not on booleans only; `is None`, `is not None` on an option;
               `x in (..)`, `x not in (..)` on a tuple literal of ints or a local bound to one (e.g. trbl);
               `A if C else B`;
               n[i][j], i, j in {0,1,2}, on the 3x3 neighbourhood       ->  src_nb n i j = nth j (nth i n []) 0
               c[0], c[1] on the cell index (a pair)                      ->  fst c, snd c
               self._attr: a constructor parameter stored by `self._attr = <param>` in __init__ and assigned nowhere
               else (becomes a parameter of src_<name>), or a literal int constant assigned once in __init__
               self._method(args) where the method is itself translated   ->  src_<..> <its attributes> args
               np.sum(n) on the 3x3 block                                 ->  zsum (concat n)
               np.any([E for i in (tuple literal)])                       ->  existsb (fun i => E) [..]
               nks_rule(n, self._rule_number)                             ->  the MODEL's nks_rule n R : res Z
               self._previous_state[c] (read)                             ->  vec_read st c (None = IndexError)
               n[len(n) // 2] on the 1D neighbourhood                     ->  nth (length n / 2) n 0
               len(ca) > k  etc.                                          ->  Z.of_nat (length ca)
               ca[-k] on the list of states                               ->  py_get ca (-k) : res C (IndexError)
               (A == B).all() on two states                               ->  cfg_eqb A B
  Operations that can raise (nks_rule, vec_read, py_get) are sequenced with `bind` in source order; they are
  rejected inside short-circuit positions (right operands of and/or, branches of a conditional expression).

The parameter types of each target (which name is the 3x3 block, which the cell index, ...) are declared in TARGETS
below: they are assumptions about how the library calls the function, not read from the source.

`main()` writes coq/gen/GenFuns.v ONLY IF its content changed, plus coq/gen/GenFuns.status.json.
`pre_hook` / `extra_hook` are the run-time glue used by harness/props/c{06,11,13,14,15}.py.
"""
import ast
import atexit
import glob
import hashlib
import json
import os
import re
import shutil
import sys
import time

VERIF = os.path.dirname(os.path.dirname(os.path.abspath(__file__)))
COQ = os.path.join(VERIF, 'coq')
GEN = os.path.join(COQ, 'gen')
OUT = os.path.join(GEN, 'GenFuns.v')
STATUS = os.path.join(GEN, 'GenFuns.status.json')

TRUSTED_NOTE = ('harness/translate.py: the Python-ast -> Gallina translator and its subset (fail-closed; a wrong '
                'translation rule could make a wrong source look right, which is why the correspondence check, '
                'which runs the real code, is kept next to it); the declared parameter types of the translated '
                'functions')


class TranslationError(Exception):
    pass


def repo_dir():
    return os.environ.get('CELLPYLIB_REPO', '/repo')


# ------------------------------------------------------------------------------------------------ types
Z, BOOL, OPTZ, CELL, ZLIST, NBHD, ZVEC, NNUM, HIST, CFG, ADDS, ADD, STORE, NATIDX, DICT5, UNUSED = (
    'Z', 'bool', 'optZ', 'cell', 'zlist', 'nbhd', 'zvec', 'N', 'hist', 'cfg', 'adds', 'add', 'store', 'natidx',
    'dict5', 'unused')
COQ_TYPE = {Z: 'Z', BOOL: 'bool', OPTZ: 'option Z', CELL: '(Z * Z)', ZLIST: 'list Z', NBHD: 'list (list Z)',
            ZVEC: 'list Z', NNUM: 'N', HIST: 'list C', CFG: 'C', ADDS: 'list ((Z * Z) * Z)', ADD: '((Z * Z) * Z)',
            NATIDX: 'nat', DICT5: '(Z * Z * Z * Z * Z -> option Z)', STORE: 'S'}

COQ_KEYWORDS = set('as at cofix else end exists exists2 fix for forall fun if IF in let match mod return Set Prop '
                   'SProp Type then using where with'.split())
# identifiers that the templates emit: a Python local of that name would capture them
TEMPLATE_NAMES = set('nth length concat zsum fold_left existsb negb fst snd bind Ok Raise Some None true false '
                     'ValueError IndexError py_get Z N nat list option bool st vec_read vec_write cfg_eqb C S '
                     'nks_rule andb orb xorb'.split())

# ------------------------------------------------------------------------------------------------ targets
CLASS_ATTRS = {
    # attribute -> (type, constructor parameter it must be stored from)   |   constants are discovered in __init__
    'Sandpile': {'_rows': (Z, 'rows'), '_cols': (Z, 'cols'), '_is_closed_boundary': (BOOL, 'is_closed_boundary'),
                 '_grain_additions': (ADDS, None)},
    'SDSRLoop': {'_rule_table': (DICT5, None)},
    'Evoloop': {'_rule_table': (DICT5, None)},
    'CTRBLRule': {'_rule_table': (DICT5, None)},
    'ReversibleRule': {'_rule_number': (NNUM, 'rule_number'), '_previous_state': (STORE, None)},
}

TARGETS = [
    dict(name='game_of_life_rule', prop='C11', file='ca_functions2d.py', cls=None, func='game_of_life_rule',
         params=[('neighbourhood', NBHD), ('c', UNUSED), ('t', UNUSED)], attrs=[]),
    dict(name='sandpile_is_in_boundary', prop='C14', file='sandpile.py', cls='Sandpile', func='_is_in_boundary',
         params=[('c', CELL)], attrs=['_rows', '_cols']),
    dict(name='sandpile_call', prop='C14', file='sandpile.py', cls='Sandpile', func='__call__',
         params=[('n', NBHD), ('c', CELL), ('t', Z)],
         attrs=['_rows', '_cols', '_is_closed_boundary', '_grain_additions']),
    dict(name='sdsr_is_in_tube', prop='C15', file='sdsr_loop.py', cls='SDSRLoop', func='_is_in_tube',
         params=[('top', Z), ('right', Z), ('bottom', Z), ('left', Z)], attrs=[]),
    dict(name='sdsr_call', prop='C15', file='sdsr_loop.py', cls='SDSRLoop', func='__call__',
         params=[('n', NBHD), ('c', UNUSED), ('t', UNUSED)], attrs=['_rule_table'],
         split_default='sdsr_default'),
    dict(name='evoloop_call', prop='C15', file='evoloop.py', cls='Evoloop', func='__call__',
         params=[('n', NBHD), ('c', UNUSED), ('t', UNUSED)], attrs=['_rule_table'],
         split_default='evoloop_default'),
    dict(name='ctrbl_call', prop='C15', file='ctrbl_rule.py', cls='CTRBLRule', func='__call__',
         params=[('n', NBHD), ('c', UNUSED), ('t', UNUSED)], attrs=['_rule_table']),
    dict(name='reversible_call', prop='C13', file='ca_functions.py', cls='ReversibleRule', func='__call__',
         params=[('n', ZVEC), ('c', NATIDX), ('t', UNUSED)], attrs=['_rule_number'], state='_previous_state',
         generic='{S : Type} (vec_read : S -> nat -> option Z) (vec_write : S -> nat -> Z -> S)'),
    dict(name='until_fixed_point_timesteps', prop='C06', file='ca_functions.py', cls=None,
         func='until_fixed_point', inner='_timesteps',
         params=[('ca', HIST), ('t', UNUSED)], attrs=[],
         generic='{C : Type} (cfg_eqb : C -> C -> bool)'),
]
DEFAULT_PARAMS = ['current_activity', 'top', 'right', 'bottom', 'left']     # of the split default branches

PRELUDE = '''From Coq Require Import ZArith List Bool.
From CPL Require Import Model.Base Model.Numbering.
Import ListNotations.
Local Open Scope Z_scope.

(* fixed helpers of the translation templates *)
Definition src_nb (n : list (list Z)) (i j : nat) : Z := nth j (nth i n []) 0.
Definition src_zin (x : Z) (l : list Z) : bool := existsb (Z.eqb x) l.
Definition src_cell_eqb (a b : Z * Z) : bool := (fst a =? fst b) && (snd a =? snd b).
Definition src_is_none (o : option Z) : bool := match o with None => true | Some _ => false end.
Definition src_index {A} (o : option A) : res A := match o with Some v => Ok v | None => Raise IndexError end.
'''


# ------------------------------------------------------------------------------------------------ helpers
def _err(node, msg):
    line = getattr(node, 'lineno', '?')
    raise TranslationError('line %s: %s' % (line, msg))


def _zlit(k):
    return '(%d)' % k if k < 0 else '%d' % k


def _is_int_const(node):
    return isinstance(node, ast.Constant) and isinstance(node.value, int) and not isinstance(node.value, bool)


def _is_self_attr(node, attr=None):
    return (isinstance(node, ast.Attribute) and isinstance(node.value, ast.Name) and node.value.id == 'self'
            and (attr is None or node.attr == attr))


def _contains(stmts, kinds):
    for s in stmts:
        for n in ast.walk(s):
            if isinstance(n, kinds):
                return True
    return False


def _assigned(stmts):
    """local names assigned anywhere in the statements (in first-occurrence order)"""
    out = []
    for s in stmts:
        for n in ast.walk(s):
            tg = []
            if isinstance(n, ast.Assign):
                tg = n.targets
            elif isinstance(n, ast.AugAssign):
                tg = [n.target]
            elif isinstance(n, ast.For):
                tg = [n.target]
            for t in tg:
                if isinstance(t, ast.Name) and t.id not in out:
                    out.append(t.id)
    return out


def _names_in(node):
    return {n.id for n in ast.walk(node) if isinstance(n, ast.Name)}


def _check_ident(node, name):
    if name in COQ_KEYWORDS or name in TEMPLATE_NAMES or name.startswith(('src_', 'self_', '_', 'r_')) \
            or not re.match(r'^[A-Za-z][A-Za-z0-9_]*$', name):
        _err(node, 'local name %r cannot be used as a Coq binder by this translator' % name)
    return name


class Env:
    def __init__(self, fn):
        self.fn = fn                  # FunTrans
        self.vars = {}                # name -> type
        self.elts = {}                # name -> list of element texts (locals bound to a tuple/list literal)
        self.binds = []               # pending (name, monadic text)
        self.noeffect = 0             # > 0: inside a position where an operation that can raise is rejected
        self.toplevel = True          # at the top level of the function body

    def copy(self):
        e = Env(self.fn)
        e.vars = dict(self.vars)
        e.elts = dict(self.elts)
        e.noeffect = self.noeffect
        e.toplevel = self.toplevel
        return e


# ------------------------------------------------------------------------------------------------ one function
class FunTrans:
    """translation of one function body; `rets` collects the return sites (placeholders in the text)"""

    def __init__(self, mod, target, clsnode, attr_info, consts):
        self.mod = mod                # ModuleInfo
        self.t = target
        self.clsnode = clsnode
        self.attr_info = attr_info    # attr -> type  (checked against __init__)
        self.consts = consts          # attr -> int
        self.rets = []                # (kind, text)
        self.effects = False          # uses bind / Raise
        self.fresh = 0
        self.stateful = bool(target.get('state'))
        self.subdefs = []             # extra definitions produced (split default)
        self.mode_effects_ok = False  # may this function use bind / Raise (declared per target)

    # ---------------------------------------------------------------- return sites
    def ret(self, kind, text):
        self.rets.append((kind, text))
        return '\x00RET%d\x00' % (len(self.rets) - 1)

    def finish(self, text, node):
        kinds = {k for k, _ in self.rets}
        if not kinds:
            _err(node, 'function without a return site')
        if kinds <= {Z}:
            rty = Z
        elif kinds <= {BOOL}:
            rty = BOOL
        elif kinds <= {Z, OPTZ, 'none'}:
            rty = OPTZ
        else:
            _err(node, 'return sites of incompatible kinds: %s' % sorted(kinds))
        for i, (k, tx) in enumerate(self.rets):
            if rty == OPTZ:
                v = 'None' if k == 'none' else (tx if k == OPTZ else '(Some %s)' % tx)
            else:
                v = tx
            if self.stateful:
                v = '(st, %s)' % v
            if self.effects:
                v = '(Ok %s)' % v
            text = text.replace('\x00RET%d\x00' % i, v)
        cty = COQ_TYPE[rty]
        if self.stateful:
            cty = '(S * %s)' % cty
        if self.effects:
            cty = 'res %s' % cty
        return text, cty

    # ---------------------------------------------------------------- expressions
    def bind(self, env, node, mtext):
        if env.noeffect:
            _err(node, 'an operation that can raise inside a short-circuit position is outside the subset')
        if not self.mode_effects_ok:
            _err(node, 'an operation that can raise in a function declared pure')
        self.fresh += 1
        name = 'r_%d' % self.fresh
        env.binds.append((name, mtext))
        self.effects = True
        return name

    def expr(self, e, env):
        """-> (coq text, type)"""
        if isinstance(e, ast.Constant):
            if isinstance(e.value, bool):
                return ('true' if e.value else 'false'), BOOL
            if isinstance(e.value, int):
                return _zlit(e.value), Z
            if e.value is None:
                return 'None', OPTZ
            _err(e, 'constant %r is outside the subset' % (e.value,))
        if isinstance(e, ast.Name):
            if e.id not in env.vars:
                _err(e, 'name %r is not a local known at this point' % e.id)
            ty = env.vars[e.id]
            if ty == UNUSED:
                _err(e, 'parameter %r is declared unused for this target but is read' % e.id)
            return e.id, ty
        if isinstance(e, ast.Attribute):
            return self.attribute(e, env)
        if isinstance(e, ast.UnaryOp):
            a, ta = self.expr(e.operand, env)
            if isinstance(e.op, ast.USub) and ta == Z:
                return '(- %s)' % a, Z
            if isinstance(e.op, ast.Not) and ta == BOOL:
                return '(negb %s)' % a, BOOL
            _err(e, 'unary operator %s on %s is outside the subset' % (type(e.op).__name__, ta))
        if isinstance(e, ast.BinOp):
            return self.binop(e, env)
        if isinstance(e, ast.BoolOp):
            parts = []
            for i, v in enumerate(e.values):
                if i:
                    env.noeffect += 1
                try:
                    a, ta = self.expr(v, env)
                finally:
                    if i:
                        env.noeffect -= 1
                if ta != BOOL:
                    _err(v, '`and`/`or` on a non-boolean operand (%s) is outside the subset' % ta)
                parts.append(a)
            op = ' && ' if isinstance(e.op, ast.And) else ' || '
            return '(' + op.join(parts) + ')', BOOL
        if isinstance(e, ast.Compare):
            return self.compare(e, env)
        if isinstance(e, ast.IfExp):
            c, tc = self.expr(e.test, env)
            if tc != BOOL:
                _err(e, 'condition of a conditional expression is not boolean')
            env.noeffect += 1
            try:
                a, ta = self.expr(e.body, env)
                b, tb = self.expr(e.orelse, env)
            finally:
                env.noeffect -= 1
            if ta != tb:
                a, b, ta = self.unify(e, a, ta, b, tb)
            return '(if %s then %s else %s)' % (c, a, b), ta
        if isinstance(e, (ast.Tuple, ast.List)):
            txt, _ = self.zlist_literal(e, env)
            return txt, ZLIST
        if isinstance(e, ast.Subscript):
            return self.subscript(e, env)
        if isinstance(e, ast.Call):
            return self.call(e, env)
        _err(e, 'expression %s is outside the subset' % type(e).__name__)

    def unify(self, node, a, ta, b, tb):
        if {ta, tb} == {Z, OPTZ}:
            return ('(Some %s)' % a if ta == Z else a), ('(Some %s)' % b if tb == Z else b), OPTZ
        _err(node, 'branches of different types (%s, %s)' % (ta, tb))

    def zlist_literal(self, e, env):
        elts = []
        for x in e.elts:
            a, ta = self.expr(x, env)
            if ta != Z:
                _err(x, 'element of a tuple/list literal is not an int (%s)' % ta)
            elts.append(a)
        return '[' + '; '.join(elts) + ']', elts

    def attribute(self, e, env):
        if _is_self_attr(e):
            a = e.attr
            if a in self.consts:
                return _zlit(self.consts[a]), Z
            if a in self.attr_info and a in self.t['attrs']:
                ty = self.attr_info[a]
                if ty in (ADDS, DICT5, STORE):
                    _err(e, 'attribute self.%s may only be used through its idiom' % a)
                return 'self' + a, ty
            _err(e, 'self.%s is not a declared attribute of this target' % a)
        if isinstance(e.value, ast.Name) and env.vars.get(e.value.id) == ADD:
            if e.attr == 'cell_index':
                return '(fst %s)' % e.value.id, CELL
            if e.attr == 'timestep':
                return '(snd %s)' % e.value.id, Z
        _err(e, 'attribute access .%s is outside the subset' % e.attr)

    def const_divisor(self, node):
        if _is_int_const(node) and node.value != 0:
            return _zlit(node.value)
        if _is_self_attr(node) and node.attr in self.consts and self.consts[node.attr] != 0:
            return _zlit(self.consts[node.attr])
        _err(node, '`%` / `//` need a non-zero literal or class-constant divisor')

    def binop(self, e, env):
        if isinstance(e.op, (ast.Mod, ast.FloorDiv)):
            a, ta = self.expr(e.left, env)
            if ta != Z:
                _err(e, '`%` / `//` on a non-int')
            d = self.const_divisor(e.right)
            return '(%s %s %s)' % ('Z.modulo' if isinstance(e.op, ast.Mod) else 'Z.div', a, d), Z
        a, ta = self.expr(e.left, env)
        b, tb = self.expr(e.right, env)
        if ta != Z or tb != Z:
            _err(e, 'arithmetic on non-int operands (%s, %s) is outside the subset' % (ta, tb))
        if isinstance(e.op, ast.Add):
            return '(%s + %s)' % (a, b), Z
        if isinstance(e.op, ast.Sub):
            return '(%s - %s)' % (a, b), Z
        if isinstance(e.op, ast.Mult):
            return '(%s * %s)' % (a, b), Z
        if isinstance(e.op, ast.BitXor):
            return '(Z.lxor %s %s)' % (a, b), Z
        _err(e, 'operator %s is outside the subset' % type(e.op).__name__)

    def compare(self, e, env):
        operands = [e.left] + list(e.comparators)
        # membership / identity: single comparison only
        if any(isinstance(op, (ast.In, ast.NotIn, ast.Is, ast.IsNot)) for op in e.ops):
            if len(e.ops) != 1:
                _err(e, 'chained `in` / `is` is outside the subset')
            op, l, r = e.ops[0], operands[0], operands[1]
            if isinstance(op, (ast.Is, ast.IsNot)):
                if not (isinstance(r, ast.Constant) and r.value is None):
                    _err(e, '`is` is only translated against None')
                a, ta = self.expr(l, env)
                if ta != OPTZ:
                    _err(e, '`is None` on a value that is not an option (%s)' % ta)
                t = '(src_is_none %s)' % a
                return (t if isinstance(op, ast.Is) else '(negb %s)' % t), BOOL
            a, ta = self.expr(l, env)
            if ta != Z:
                _err(e, 'left operand of `in` is not an int (%s)' % ta)
            if isinstance(r, ast.Tuple):
                lst, _ = self.zlist_literal(r, env)
            elif isinstance(r, ast.Name) and env.vars.get(r.id) == ZLIST:
                lst = r.id
            else:
                _err(e, '`in` is only translated on a tuple literal of ints or a local bound to one')
            t = '(src_zin %s %s)' % (a, lst)
            return (t if isinstance(op, ast.In) else '(negb %s)' % t), BOOL
        texts = [self.expr(x, env) for x in operands]
        parts = []
        for i, op in enumerate(e.ops):
            (a, ta), (b, tb) = texts[i], texts[i + 1]
            if ta == CELL and tb == CELL and isinstance(op, (ast.Eq, ast.NotEq)):
                t = '(src_cell_eqb %s %s)' % (a, b)
                parts.append(t if isinstance(op, ast.Eq) else '(negb %s)' % t)
                continue
            if ta != Z or tb != Z:
                _err(e, 'comparison of non-int operands (%s, %s) is outside the subset' % (ta, tb))
            if isinstance(op, ast.Eq):
                parts.append('(%s =? %s)' % (a, b))
            elif isinstance(op, ast.NotEq):
                parts.append('(negb (%s =? %s))' % (a, b))
            elif isinstance(op, ast.Lt):
                parts.append('(%s <? %s)' % (a, b))
            elif isinstance(op, ast.LtE):
                parts.append('(%s <=? %s)' % (a, b))
            elif isinstance(op, ast.Gt):
                parts.append('(%s <? %s)' % (b, a))
            elif isinstance(op, ast.GtE):
                parts.append('(%s <=? %s)' % (b, a))
            else:
                _err(e, 'comparison operator %s is outside the subset' % type(op).__name__)
        return (parts[0] if len(parts) == 1 else '(' + ' && '.join(parts) + ')'), BOOL

    def subscript(self, e, env):
        # n[i][j] on the 3x3 block
        if isinstance(e.value, ast.Subscript) and isinstance(e.value.value, ast.Name) \
                and env.vars.get(e.value.value.id) == NBHD:
            i, j = e.value.slice, e.slice
            if _is_int_const(i) and _is_int_const(j) and i.value in (0, 1, 2) and j.value in (0, 1, 2):
                return '(src_nb %s %d %d)' % (e.value.value.id, i.value, j.value), Z
            _err(e, 'subscript of the 3x3 neighbourhood with indices that are not constants in 0..2')
        if isinstance(e.value, ast.Name):
            ty = env.vars.get(e.value.id)
            if ty == CELL and _is_int_const(e.slice) and e.slice.value in (0, 1):
                return '(%s %s)' % ('fst' if e.slice.value == 0 else 'snd', e.value.id), Z
            if ty == ZVEC:
                # n[len(n) // 2]
                s = e.slice
                if (isinstance(s, ast.BinOp) and isinstance(s.op, ast.FloorDiv) and _is_int_const(s.right)
                        and s.right.value == 2 and isinstance(s.left, ast.Call) and isinstance(s.left.func, ast.Name)
                        and s.left.func.id == 'len' and len(s.left.args) == 1 and not s.left.keywords
                        and isinstance(s.left.args[0], ast.Name) and s.left.args[0].id == e.value.id):
                    return '(nth (length %s / 2)%%nat %s 0)' % (e.value.id, e.value.id), Z
                _err(e, 'subscript of the 1D neighbourhood other than n[len(n) // 2]')
            if ty == HIST:
                s = e.slice
                if isinstance(s, ast.UnaryOp) and isinstance(s.op, ast.USub) and _is_int_const(s.operand) \
                        and s.operand.value > 0:
                    r = self.bind(env, e, 'py_get %s (%d)' % (e.value.id, -s.operand.value))
                    return r, CFG
                _err(e, 'subscript of the list of states other than ca[-k]')
        if self.stateful and _is_self_attr(e.value, self.t['state']):
            i, ti = self.expr(e.slice, env)
            if ti != NATIDX:
                _err(e, 'index of self.%s is not the cell index' % self.t['state'])
            r = self.bind(env, e, 'src_index (vec_read st %s)' % i)
            return r, Z
        _err(e, 'subscript is outside the subset')

    def call(self, e, env):
        f = e.func
        if e.keywords:
            _err(e, 'keyword arguments are outside the subset')
        # np.sum(n) / np.any([...])
        if isinstance(f, ast.Attribute) and isinstance(f.value, ast.Name) and f.value.id == 'np':
            if not self.mod.imports_numpy_as_np:
                _err(e, '`np` is not `import numpy as np` in this module')
            if f.attr == 'sum' and len(e.args) == 1 and isinstance(e.args[0], ast.Name) \
                    and env.vars.get(e.args[0].id) == NBHD:
                return '(zsum (concat %s))' % e.args[0].id, Z
            if f.attr == 'any' and len(e.args) == 1 and isinstance(e.args[0], ast.ListComp):
                lc = e.args[0]
                if len(lc.generators) != 1:
                    _err(e, 'comprehension with several generators')
                g = lc.generators[0]
                if g.ifs or g.is_async or not isinstance(g.target, ast.Name) or not isinstance(g.iter, ast.Tuple):
                    _err(e, 'np.any is only translated over [E for i in (tuple literal)]')
                v = _check_ident(g.target, g.target.id)
                if v in env.vars:
                    _err(e, 'comprehension variable %r shadows a local' % v)
                lst, _ = self.zlist_literal(g.iter, env)
                inner = env.copy()
                inner.vars[v] = Z
                inner.noeffect = 1
                b, tb = self.expr(lc.elt, inner)
                if tb != BOOL:
                    _err(e, 'np.any over non-boolean elements')
                return '(existsb (fun %s => %s) %s)' % (v, b, lst), BOOL
            _err(e, 'np.%s(...) in this form is outside the subset' % f.attr)
        # self._method(args)
        if _is_self_attr(f):
            callee = self.mod.method_target(self.t.get('cls'), f.attr)
            if callee is None:
                _err(e, 'self.%s(...) is not a translated method' % f.attr)
            if len(e.args) != len(callee['params']):
                _err(e, 'self.%s called with %d arguments' % (f.attr, len(e.args)))
            args = []
            for a in callee['attrs']:
                if a not in self.t['attrs']:
                    _err(e, 'callee needs self.%s which this target does not declare' % a)
                args.append('self' + a)
            for x, (pn, pty) in zip(e.args, callee['params']):
                tx, ty = self.expr(x, env)
                if ty != pty:
                    _err(x, 'argument %s of self.%s has type %s, expected %s' % (pn, f.attr, ty, pty))
                args.append(tx)
            rty = self.mod.result_type(callee['name'])
            if rty is None:
                _err(e, 'self.%s was not translated (or is translated later)' % f.attr)
            return '(src_%s %s)' % (callee['name'], ' '.join(args)), rty
        if isinstance(f, ast.Name):
            if f.id == 'len' and len(e.args) == 1 and isinstance(e.args[0], ast.Name) \
                    and env.vars.get(e.args[0].id) in (HIST, ZVEC):
                return '(Z.of_nat (length %s))' % e.args[0].id, Z
            if f.id == 'nks_rule' and len(e.args) == 2:
                if not self.mod.has_function('nks_rule'):
                    _err(e, 'nks_rule is not a function of this module')
                n, tn = self.expr(e.args[0], env)
                r, tr = self.expr(e.args[1], env)
                if tn != ZVEC or tr != NNUM:
                    _err(e, 'nks_rule(%s, %s) is outside the subset' % (tn, tr))
                return self.bind(env, e, 'nks_rule %s %s' % (n, r)), Z
        # (A == B).all()
        if isinstance(f, ast.Attribute) and f.attr == 'all' and not e.args and isinstance(f.value, ast.Compare) \
                and len(f.value.ops) == 1 and isinstance(f.value.ops[0], ast.Eq):
            a, ta = self.expr(f.value.left, env)
            b, tb = self.expr(f.value.comparators[0], env)
            if ta == CFG and tb == CFG:
                return '(cfg_eqb %s %s)' % (a, b), BOOL
            _err(e, '(A == B).all() on values that are not two states')
        _err(e, 'call is outside the subset')

    # ---------------------------------------------------------------- statements
    def wrap_binds(self, env, text):
        """wrap `text` in the pending binds (first evaluated outermost)"""
        for name, m in reversed(env.binds):
            text = '(bind (%s) (fun %s =>\n%s))' % (m, name, text)
        env.binds = []
        return text

    @staticmethod
    def let(pat, value, body):
        """let pat := value in body; `let x := v in x` is written v"""
        if body == pat:
            return value
        return '(let %s := %s in\n%s)' % (pat, value, body)

    def coerce_assign(self, node, name, env, tx, ty):
        if name in env.vars:
            old = env.vars[name]
            if old == ty:
                return tx, ty
            if old == OPTZ and ty == Z:
                return '(Some %s)' % tx, OPTZ
            _err(node, 'local %r changes type (%s -> %s)' % (name, old, ty))
        return tx, ty

    def block(self, stmts, env, k):
        """translate a statement list; k(env) gives the text of what follows it"""
        if not stmts:
            return k(env)
        s, rest = stmts[0], stmts[1:]

        def cont(env2):
            return self.block(rest, env2, k)

        if isinstance(s, ast.Expr) and isinstance(s.value, ast.Constant) and isinstance(s.value.value, str):
            return cont(env)                                                    # docstring
        # the dictionary idiom (last two statements)
        if self.is_dict_idiom(s, rest):
            return self.dict_idiom(s, rest[0], env)
        if isinstance(s, ast.Assign):
            if len(s.targets) != 1:
                _err(s, 'multiple assignment targets')
            tg = s.targets[0]
            if isinstance(tg, ast.Name):
                name = _check_ident(tg, tg.id)
                tx, ty = self.expr(s.value, env)
                if ty in (ADDS, DICT5, STORE, UNUSED):
                    _err(s, 'a value of type %s cannot be bound to a local' % ty)
                tx, ty = self.coerce_assign(s, name, env, tx, ty)
                env2 = env.copy()
                env2.vars[name] = ty
                env2.elts.pop(name, None)
                if isinstance(s.value, (ast.Tuple, ast.List)):
                    env2.elts[name] = self.zlist_literal(s.value, env)[1]
                # a local that is a component of a recorded tuple must not be re-bound afterwards
                for other, elts in env.elts.items():
                    if name in elts and other != name:
                        env2.elts.pop(other, None)
                if ty == OPTZ and tx == 'None':
                    tx = '(@None Z)'
                return self.wrap_binds(env, self.let(name, tx, cont(env2)))
            if self.stateful and isinstance(tg, ast.Subscript) and _is_self_attr(tg.value, self.t['state']):
                if not env.toplevel:
                    _err(s, 'a write to self.%s below the top level of the body' % self.t['state'])
                i, ti = self.expr(tg.slice, env)
                if ti != NATIDX:
                    _err(s, 'index of the write is not the cell index')
                v, tv = self.expr(s.value, env)
                if tv != Z:
                    _err(s, 'value written is not an int')
                return self.wrap_binds(env, '(let st := vec_write st %s %s in\n%s)' % (i, v, cont(env)))
            _err(s, 'assignment target is outside the subset')
        if isinstance(s, ast.AugAssign):
            if not isinstance(s.target, ast.Name) or env.vars.get(s.target.id) != Z:
                _err(s, 'augmented assignment to something that is not an int local')
            if not isinstance(s.op, (ast.Add, ast.Sub)):
                _err(s, 'augmented assignment other than += / -=')
            v, tv = self.expr(s.value, env)
            if tv != Z:
                _err(s, 'augmented assignment of a non-int')
            name = s.target.id
            env2 = env.copy()
            for other, elts in env.elts.items():
                if name in elts:
                    env2.elts.pop(other, None)
            return self.wrap_binds(env, self.let(name, '(%s %s %s)' % (
                name, '+' if isinstance(s.op, ast.Add) else '-', v), cont(env2)))
        if isinstance(s, ast.Return):
            if rest:
                _err(rest[0], 'statements after a return')
            if s.value is None or (isinstance(s.value, ast.Constant) and s.value.value is None):
                return self.ret('none', 'None')
            tx, ty = self.expr(s.value, env)
            if ty not in (Z, BOOL, OPTZ):
                _err(s, 'return of a value of type %s' % ty)
            return self.wrap_binds(env, self.ret(ty, tx))
        if isinstance(s, ast.Raise):
            if rest:
                _err(rest[0], 'statements after a raise')
            ex = s.exc
            ok = (isinstance(ex, ast.Call) and isinstance(ex.func, ast.Name) and ex.func.id == 'ValueError'
                  and not ex.keywords and s.cause is None and len(ex.args) <= 1)
            if ok and ex.args:
                m = ex.args[0]
                ok = (isinstance(m, ast.Constant) and isinstance(m.value, str)) or (
                    isinstance(m, ast.BinOp) and isinstance(m.op, ast.Mod) and isinstance(m.left, ast.Constant)
                    and isinstance(m.left.value, str)
                    and (isinstance(m.right, ast.Name) or (isinstance(m.right, ast.Tuple) and
                                                           all(isinstance(x, ast.Name) for x in m.right.elts))))
                if ok:
                    for nm in _names_in(m):
                        if nm not in env.vars:
                            _err(s, 'message of the raise reads an unknown name %r' % nm)
            if not ok:
                _err(s, 'raise other than `raise ValueError(<str> [% names])`')
            if not self.mode_effects_ok:
                _err(s, 'raise in a function declared pure')
            self.effects = True
            return '(Raise ValueError)'
        if isinstance(s, ast.If):
            return self.if_stmt(s, env, cont)
        if isinstance(s, ast.For):
            return self.for_stmt(s, env, cont)
        _err(s, 'statement %s is outside the subset' % type(s).__name__)

    def value_block(self, stmts, env, W):
        """statements without return/raise, as the value of the locals W afterwards"""
        def k(env2):
            return W[0] if len(W) == 1 else '(' + ', '.join(W) + ')'
        sub = env.copy()
        sub.toplevel = False
        return self.block(stmts, sub, k)

    def if_stmt(self, s, env, cont):
        c, tc = self.expr(s.test, env)
        if tc != BOOL:
            _err(s, 'condition of `if` is not boolean (%s): truthiness of other values is outside the subset' % tc)
        if _contains(s.body + s.orelse, (ast.Return, ast.Raise)):
            a_env, b_env = env.copy(), env.copy()
            a_env.toplevel = b_env.toplevel = False
            a = self.block(s.body, a_env, cont)
            b = self.block(s.orelse, b_env, cont)
            return self.wrap_binds(env, '(if %s\nthen %s\nelse %s)' % (c, a, b))
        W = _assigned(s.body + s.orelse)
        if not W:
            _err(s, '`if` without effect')
        for w in W:
            if w not in env.vars:
                _err(s, 'local %r is first assigned inside a branch (possibly undefined afterwards)' % w)
            if env.vars[w] not in (Z, BOOL, OPTZ):
                _err(s, 'local %r of type %s assigned inside a branch' % (w, env.vars[w]))
        a = self.value_block(s.body, env, W)
        b = self.value_block(s.orelse, env, W)
        env2 = env.copy()
        for other, elts in env.elts.items():
            if set(W) & set(elts):
                env2.elts.pop(other, None)
        pat = W[0] if len(W) == 1 else "'(" + ', '.join(W) + ')'
        return self.wrap_binds(env, self.let(pat, '(if %s then %s else %s)' % (c, a, b), cont(env2)))

    def for_stmt(self, s, env, cont):
        if s.orelse:
            _err(s, 'for ... else')
        if not isinstance(s.target, ast.Name):
            _err(s, 'loop target is not a name')
        x = _check_ident(s.target, s.target.id)
        if x in env.vars:
            _err(s, 'loop variable %r shadows a local' % x)
        # the scan over self._grain_additions
        if _is_self_attr(s.iter) and self.attr_info.get(s.iter.attr) == ADDS and s.iter.attr in self.t['attrs']:
            b = s.body
            if not (len(b) == 1 and isinstance(b[0], ast.If) and not b[0].orelse and len(b[0].body) == 1
                    and isinstance(b[0].body[0], ast.Return) and b[0].body[0].value is not None):
                _err(s, 'loop over self.%s whose body is not `if <test>: return <e>`' % s.iter.attr)
            if x in _names_in(b[0].body[0].value):
                _err(s, 'the value returned from the scan depends on the element found')
            inner = env.copy()
            inner.vars[x] = ADD
            inner.noeffect = 1
            tst, tt = self.expr(b[0].test, inner)
            if tt != BOOL:
                _err(s, 'test of the scan is not boolean')
            r_env = env.copy()
            r_env.toplevel = False
            val = self.block([b[0].body[0]], r_env, None)
            return '(if existsb (fun %s => %s) self%s\nthen %s\nelse %s)' % (x, tst, s.iter.attr, val, cont(env))
        # fold over a literal list / tuple
        if isinstance(s.iter, (ast.List, ast.Tuple)):
            lst, _ = self.zlist_literal(s.iter, env)
        elif isinstance(s.iter, ast.Name) and env.vars.get(s.iter.id) == ZLIST:
            lst = s.iter.id
        else:
            _err(s, 'loop over something that is not a list/tuple literal (or a local bound to one)')
        if _contains(s.body, (ast.Return, ast.Raise, ast.Break, ast.Continue, ast.For, ast.While)):
            _err(s, 'loop body with return / raise / break / continue / nested loop')
        W = _assigned(s.body)
        if len(W) != 1:
            _err(s, 'loop body must assign exactly one local (assigns %s)' % W)
        w = W[0]
        if env.vars.get(w) != Z:
            _err(s, 'loop accumulator %r is not an int local defined before the loop' % w)
        inner = env.copy()
        inner.vars[x] = Z
        inner.noeffect = 1
        body = self.value_block(s.body, inner, [w])
        env2 = env.copy()
        for other, elts in env.elts.items():
            if w in elts:
                env2.elts.pop(other, None)
        return self.let(w, '(fold_left (fun %s %s => %s) %s %s)' % (w, x, body, lst, w), cont(env2))

    # ---------------------------------------------------------------- the dictionary idiom
    def is_dict_idiom(self, s, rest):
        if not (isinstance(s, ast.If) and not s.orelse and len(rest) == 1 and isinstance(rest[0], ast.Return)):
            return False
        t = s.test
        if not (isinstance(t, ast.Compare) and len(t.ops) == 1 and isinstance(t.ops[0], ast.NotIn)
                and isinstance(t.left, ast.Name) and _is_self_attr(t.comparators[0])
                and self.attr_info.get(t.comparators[0].attr) == DICT5):
            return False
        r = rest[0].value
        return (isinstance(r, ast.Subscript) and _is_self_attr(r.value, t.comparators[0].attr)
                and isinstance(r.slice, ast.Name) and r.slice.id == t.left.id)

    def dict_idiom(self, s, ret, env):
        attr = s.test.comparators[0].attr
        if attr not in self.t['attrs']:
            _err(s, 'self.%s is not declared for this target' % attr)
        key = s.test.left.id
        elts = env.elts.get(key)
        if env.vars.get(key) != ZLIST or elts is None or len(elts) != 5:
            _err(s, 'the key of the table lookup is not a local bound to a 5-tuple of ints')
        ktxt = '(' + ', '.join(elts) + ')'

        def dead(env2):
            _err(s, 'the `not in` branch of the table idiom can fall through')
        split = self.t.get('split_default')
        if split:
            for p in DEFAULT_PARAMS:
                if env.vars.get(p) != Z:
                    _err(s, 'local %r (an argument of the default branch) is not an int local here' % p)
            sub = FunTrans(self.mod, dict(self.t, attrs=[a for a in self.t['attrs'] if a != attr], split_default=None,
                                          name=split, params=[(p, Z) for p in DEFAULT_PARAMS]),
                           self.clsnode, self.attr_info, self.consts)
            sub.mode_effects_ok = False
            senv = Env(sub)
            senv.toplevel = True
            for p in DEFAULT_PARAMS:
                senv.vars[p] = Z
            body = sub.block(s.body, senv, dead)
            body, cty = sub.finish(body, s)
            self.subdefs.append(dict(name=split, params=[(p, Z) for p in DEFAULT_PARAMS], attrs=[],
                                     body=body, cty=cty, lo=s.body[0].lineno, hi=s.body[-1].end_lineno,
                                     what='%s.%s, the branch `if key not in self.%s:`' % (self.t['cls'], self.t['func'], attr)))
            rty = {'option Z': OPTZ, 'Z': Z}.get(cty)
            if rty is None:
                _err(s, 'default branch of type %s' % cty)
            none_branch = self.ret(rty, '(src_%s %s)' % (split, ' '.join(DEFAULT_PARAMS)))
        else:
            b_env = env.copy()
            b_env.toplevel = False
            none_branch = self.block(s.body, b_env, dead)
        some_branch = self.ret(Z, 'v_')
        return '(match self%s %s with\n| None => %s\n| Some v_ => %s\nend)' % (attr, ktxt, none_branch, some_branch)


# ------------------------------------------------------------------------------------------------ one module
class ModuleInfo:
    def __init__(self, repo, fname):
        self.path = os.path.join(repo, 'cellpylib', fname)
        self.fname = fname
        raw = open(self.path, 'rb').read()
        self.sha = hashlib.sha256(raw).hexdigest()
        self.text = raw.decode('utf-8')
        self.lines = self.text.split('\n')
        self.tree = ast.parse(self.text)
        self.imports_numpy_as_np = any(
            isinstance(n, ast.Import) and any(a.name == 'numpy' and a.asname == 'np' for a in n.names)
            for n in self.tree.body)
        self.results = {}      # target name -> result type (of already translated targets)

    def has_function(self, name):
        return any(isinstance(n, ast.FunctionDef) and n.name == name for n in self.tree.body)

    def find_class(self, name):
        for n in self.tree.body:
            if isinstance(n, ast.ClassDef) and n.name == name:
                return n
        return None

    def method_target(self, cls, method):
        for t in TARGETS:
            if t['file'] == self.fname and t.get('cls') == cls and t['func'] == method:
                return t
        return None

    def result_type(self, name):
        return self.results.get(name)


def _class_facts(mod, clsnode, clsname):
    """check how the declared attributes are set; discover the literal constants of __init__"""
    decl = CLASS_ATTRS.get(clsname, {})
    init = None
    for n in clsnode.body:
        if isinstance(n, ast.FunctionDef) and n.name == '__init__':
            init = n
    attr_info, consts = {}, {}
    # every assignment to self.<attr> anywhere in the class
    writes = {}
    for fn in clsnode.body:
        if not isinstance(fn, ast.FunctionDef):
            continue
        for n in ast.walk(fn):
            tgs = []
            if isinstance(n, ast.Assign):
                tgs = n.targets
            elif isinstance(n, (ast.AugAssign, ast.AnnAssign)):
                tgs = [n.target]
            for tg in tgs:
                for sub in ast.walk(tg):
                    if _is_self_attr(sub) and isinstance(sub.ctx, ast.Store):
                        writes.setdefault(sub.attr, []).append((fn.name, n))
    init_params = [a.arg for a in init.args.args] if init is not None else []
    for attr, ws in writes.items():
        if len(ws) == 1 and ws[0][0] == '__init__' and isinstance(ws[0][1], ast.Assign) \
                and len(ws[0][1].targets) == 1 and _is_self_attr(ws[0][1].targets[0]) \
                and ws[0][1] in init.body:
            v = ws[0][1].value
            if _is_int_const(v) and attr not in decl:
                consts[attr] = v.value
            elif attr in decl and decl[attr][1] is not None and isinstance(v, ast.Name) and v.id == decl[attr][1] \
                    and v.id in init_params:
                attr_info[attr] = decl[attr][0]
            elif attr in decl and decl[attr][0] == ADDS and isinstance(v, ast.List) and not v.elts:
                attr_info[attr] = ADDS
    for attr, (ty, _) in decl.items():
        if ty == DICT5:
            # the table is only ever read by the translated methods; who fills it is the business of GenTables.v
            attr_info[attr] = DICT5
        if ty == STORE:
            attr_info[attr] = STORE
    if ADDS in [v[0] for v in decl.values()]:
        _check_grain_additions(mod, clsnode, attr_info)
    return attr_info, consts


def _check_grain_additions(mod, clsnode, attr_info):
    """elements of self._grain_additions are _GrainAddition(cell_index, timestep) appended by add_grain only"""
    ok = False
    ga = mod.find_class('_GrainAddition')
    if ga is not None:
        init = [n for n in ga.body if isinstance(n, ast.FunctionDef) and n.name == '__init__']
        if len(init) == 1 and [a.arg for a in init[0].args.args] == ['self', 'cell_index', 'timestep']:
            body = [s for s in init[0].body if not (isinstance(s, ast.Expr) and isinstance(s.value, ast.Constant))]
            want = {'cell_index', 'timestep'}
            got = set()
            for s in body:
                if isinstance(s, ast.Assign) and len(s.targets) == 1 and _is_self_attr(s.targets[0]) \
                        and isinstance(s.value, ast.Name) and s.value.id == s.targets[0].attr:
                    got.add(s.value.id)
                else:
                    got.add('?')
            others = [n for n in ga.body if isinstance(n, ast.FunctionDef) and n.name != '__init__']
            ok = got == want and not others
    # every use of self._grain_additions in the class: the for loop of __call__ and one append in add_grain
    if ok:
        for fn in clsnode.body:
            if not isinstance(fn, ast.FunctionDef) or fn.name in ('__init__', '__call__'):
                continue
            for n in ast.walk(fn):
                if _is_self_attr(n, '_grain_additions'):
                    if fn.name != 'add_grain':
                        ok = False
        add = [n for n in clsnode.body if isinstance(n, ast.FunctionDef) and n.name == 'add_grain']
        if len(add) == 1 and [a.arg for a in add[0].args.args] == ['self', 'cell_index', 'timestep']:
            body = [s for s in add[0].body if not (isinstance(s, ast.Expr) and isinstance(s.value, ast.Constant))]
            if not (len(body) == 1 and isinstance(body[0], ast.Expr) and isinstance(body[0].value, ast.Call)
                    and isinstance(body[0].value.func, ast.Attribute) and body[0].value.func.attr == 'append'
                    and _is_self_attr(body[0].value.func.value, '_grain_additions')
                    and len(body[0].value.args) == 1 and isinstance(body[0].value.args[0], ast.Call)
                    and isinstance(body[0].value.args[0].func, ast.Name)
                    and body[0].value.args[0].func.id == '_GrainAddition'
                    and [getattr(a, 'id', None) for a in body[0].value.args[0].args] == ['cell_index', 'timestep']
                    and not body[0].value.args[0].keywords):
                ok = False
        else:
            ok = False
    if not ok:
        attr_info.pop('_grain_additions', None)


def _find_function(mod, target):
    if target.get('cls'):
        cls = mod.find_class(target['cls'])
        if cls is None:
            raise TranslationError('class %s not found in %s' % (target['cls'], mod.fname))
        fns = [n for n in cls.body if isinstance(n, ast.FunctionDef) and n.name == target['func']]
        if len(fns) != 1:
            raise TranslationError('%s.%s not found (or defined twice)' % (target['cls'], target['func']))
        return cls, fns[0]
    fns = [n for n in mod.tree.body if isinstance(n, ast.FunctionDef) and n.name == target['func']]
    if len(fns) != 1:
        raise TranslationError('function %s not found (or defined twice) in %s' % (target['func'], mod.fname))
    fn = fns[0]
    if target.get('inner'):
        # def outer(): [docstring]; def inner(...): ...; return inner
        body = [s for s in fn.body if not (isinstance(s, ast.Expr) and isinstance(s.value, ast.Constant))]
        if not (len(body) == 2 and isinstance(body[0], ast.FunctionDef) and body[0].name == target['inner']
                and isinstance(body[1], ast.Return) and isinstance(body[1].value, ast.Name)
                and body[1].value.id == target['inner'] and not fn.args.args):
            raise TranslationError('%s is not `def %s(): def %s(...): ...; return %s`' % (
                target['func'], target['func'], target['inner'], target['inner']))
        fn = body[0]
    return None, fn


def translate_target(mod, target):
    clsnode, fn = _find_function(mod, target)
    if fn.decorator_list:
        _err(fn, 'decorated function')
    a = fn.args
    if a.vararg or a.kwarg or a.kwonlyargs or a.defaults or a.posonlyargs or a.kw_defaults:
        _err(fn, 'parameter list with defaults / *args / **kwargs')
    names = [x.arg for x in a.args]
    want = (['self'] if target.get('cls') else []) + [p for p, _ in target['params']]
    if names != want:
        _err(fn, 'parameters are %s, the target declares %s' % (names, want))
    attr_info, consts = ({}, {})
    if clsnode is not None:
        attr_info, consts = _class_facts(mod, clsnode, target['cls'])
        for at in target['attrs']:
            if at not in attr_info:
                _err(fn, 'self.%s is not set the way the target declares (constructor parameter stored once in '
                         '__init__ / [] filled by add_grain only)' % at)
    ft = FunTrans(mod, target, clsnode, attr_info, consts)
    ft.mode_effects_ok = target['name'] in ('ctrbl_call', 'reversible_call', 'until_fixed_point_timesteps')
    env = Env(ft)
    env.toplevel = True
    for p, ty in target['params']:
        env.vars[_check_ident(fn, p)] = ty

    def falloff(env2):
        return ft.ret('none', 'None')
    body = ft.block(fn.body, env, falloff)
    body, cty = ft.finish(body, fn)
    main = dict(name=target['name'], params=[(p, ty) for p, ty in target['params'] if ty != UNUSED],
                attrs=[(at, attr_info[at]) for at in target['attrs'] if attr_info[at] not in ()],
                body=body, cty=cty, lo=fn.lineno, hi=fn.end_lineno, generic=target.get('generic', ''),
                stateful=ft.stateful,
                what=('%s.%s' % (target['cls'], target['func']) if target.get('cls') else
                      target['func'] + ('.' + target['inner'] if target.get('inner') else '')),
                consts=consts)
    rty = {'Z': Z, 'bool': BOOL, 'option Z': OPTZ}.get(cty)
    mod.results[target['name']] = rty
    return ft.subdefs + [main]


# ------------------------------------------------------------------------------------------------ emission
def _indent(text):
    """indent the nested text by parenthesis depth (cosmetic only)"""
    out, depth = [], 1
    for line in text.split('\n'):
        out.append('  ' * min(depth, 12) + line)
        depth += line.count('(') - line.count(')')
    return '\n'.join(out)


def _quote(mod, lo, hi):
    src = []
    for i in range(lo, hi + 1):
        ln = mod.lines[i - 1].rstrip()
        ln = ln.replace('(*', '( *').replace('*)', '* )').replace('"', "'")
        src.append('   | %4d  %s' % (i, ln))
    return '\n'.join(src)


def emit_def(mod, d):
    params = []
    if d.get('generic'):
        params.append(d['generic'])
    for at, ty in d['attrs']:
        if ty == STORE:
            continue
        params.append('(self%s : %s)' % (at, COQ_TYPE[ty]))
    if d.get('stateful'):
        params.append('(st : S)')
    for p, ty in d['params']:
        params.append('(%s : %s)' % (p, COQ_TYPE[ty]))
    head = '(* %s, cellpylib/%s lines %d-%d, sha256 of the file %s\n%s *)' % (
        d['what'], mod.fname, d['lo'], d['hi'], mod.sha, _quote(mod, d['lo'], d['hi']))
    return '%s\nDefinition src_%s %s : %s :=\n%s.\n' % (head, d['name'], ' '.join(params), d['cty'], _indent(d['body']))


def build():
    repo = repo_dir()
    status = {'repo': repo, 'functions': {}, 'files': {}, 'errors': {}}
    mods = {}
    parts = ['(* GENERATED by harness/translate.py from the Python source of the cellpylib working tree under test\n'
             '   (the path of the tree is not recorded, so that the text depends on the source alone).\n'
             '   Regenerated on every run. Do not edit. One definition src_<name> per translated function; the subset\n'
             '   and the translation rules are in the docstring of harness/translate.py. *)', PRELUDE]
    for t in TARGETS:
        try:
            if t['file'] not in mods:
                mods[t['file']] = ModuleInfo(repo, t['file'])
                status['files'][t['file']] = mods[t['file']].sha
            mod = mods[t['file']]
            defs = translate_target(mod, t)
            for d in defs:
                parts.append(emit_def(mod, d))
                status['functions']['src_' + d['name']] = {'property': t['prop'], 'file': t['file'],
                                                           'lines': [d['lo'], d['hi']], 'type': d['cty']}
        except (TranslationError, SyntaxError, OSError, UnicodeDecodeError, RecursionError) as e:
            msg = '%s: %s' % (type(e).__name__, e)
            status['errors'][t['name']] = {'property': t['prop'], 'file': t['file'], 'error': msg}
            sha = mods[t['file']].sha if t['file'] in mods and mods[t['file']] else 'unreadable'
            parts.append('(* src_%s (%s): NOT TRANSLATED, cellpylib/%s sha256 %s\n   %s *)\n' % (
                t['name'], t['prop'], t['file'], sha,
                msg.replace('(*', '( *').replace('*)', '* )').replace('"', "'")))
    return '\n'.join(parts), status


def main(out=OUT, quiet=False):
    text, status = build()
    os.makedirs(os.path.dirname(out), exist_ok=True)
    old = open(out).read() if os.path.exists(out) else None
    changed = old != text
    if changed:
        tmp = out + '.tmp%d' % os.getpid()
        open(tmp, 'w').write(text)
        os.replace(tmp, out)
    status['changed'] = changed
    status['path'] = out
    try:
        json.dump(status, open(STATUS, 'w'), indent=1, default=str)
    except OSError:
        pass
    if not quiet:
        print('translate: %s %s (%d definitions, %d not translated)' % (
            out, 'rewritten' if changed else 'unchanged', len(status['functions']), len(status['errors'])))
        for k, v in status['errors'].items():
            print('translate: %s NOT TRANSLATED: %s' % (k, v['error']))
    return status


# ------------------------------------------------------------------------------------------------ run-time glue
PROP_FUNS = {
    'C11': ['src_game_of_life_rule'],
    'C14': ['src_sandpile_is_in_boundary', 'src_sandpile_call'],
    'C15': ['src_sdsr_is_in_tube', 'src_sdsr_default', 'src_sdsr_call', 'src_evoloop_default', 'src_evoloop_call',
            'src_ctrbl_call'],
    'C13': ['src_reversible_call'],
    'C06': ['src_until_fixed_point_timesteps'],
}
EXTRA_DEPS = {'C15': ['GenProps/C15Tables.v']}      # what <pid>Src.v imports besides the equivalence file
_state = {}


def chain(pid):
    return ['gen/GenFuns.v', 'GenProps/GenFunsEquiv%s.v' % pid, 'GenProps/%sSrc.v' % pid, 'Properties/%s.v' % pid]


def _stash_dir(pid):
    return os.path.join(GEN, 'genfuns_last_good_%s' % pid)


def _stash_files(pid):
    return ['gen/GenFuns.v'] + [r + 'o' for r in chain(pid)]


def _mt(rel):
    return os.path.getmtime(os.path.join(COQ, rel))


def _first_stale(pid, upto):
    ch = chain(pid)[:upto]
    for i, rel in enumerate(ch):
        vo = rel + 'o'
        if not os.path.exists(os.path.join(COQ, vo)) or _mt(vo) < _mt(rel):
            return i
        if i > 0 and _mt(vo) < _mt(ch[i - 1] + 'o'):
            return i
        if i == 2:
            for dep in EXTRA_DEPS.get(pid, []):
                if os.path.exists(os.path.join(COQ, dep + 'o')) and _mt(vo) < _mt(dep + 'o'):
                    return i
    return None


def _stash_save(pid):
    d = _stash_dir(pid)
    os.makedirs(d, exist_ok=True)
    for rel in _stash_files(pid):
        shutil.copy2(os.path.join(COQ, rel), os.path.join(d, rel.replace('/', '__')))


def _stash_current(pid):
    d = _stash_dir(pid)
    try:
        return all(os.path.getmtime(os.path.join(d, rel.replace('/', '__'))) == _mt(rel) for rel in _stash_files(pid))
    except OSError:
        return False


def _stash_restore(pid):
    """after a run in which the translation or its equivalence proof failed: put the last good GenFuns.v and the
    .vo files of this property's chain back (newest mtimes, in dependency order), so that the builds of the other
    properties are not blocked by this failure; the next run regenerates anyway"""
    st = _state.get(pid)
    if not st or not st.get('restore'):
        return
    st['restore'] = False
    d = _stash_dir(pid)
    rels = _stash_files(pid)
    if not all(os.path.exists(os.path.join(d, r.replace('/', '__'))) for r in rels):
        return
    from harness import driver
    lk = driver._lock()
    try:
        now = time.time()
        for i, rel in enumerate(rels):
            dst = os.path.join(COQ, rel)
            shutil.copy2(os.path.join(d, rel.replace('/', '__')), dst)
            os.utime(dst, (now + i * 0.01, now + i * 0.01))
    finally:
        lk.close()


def pre_hook(ctx, pid, upto=4):
    """Regenerate GenFuns.v from the tree under test; if it changed (or a .vo of this property's chain is missing or
    stale) recompile the chain by hand under the driver's lock.  upto < 4 compiles only a prefix of the chain (C15:
    the part that does not depend on the regenerated tables, before c15.pre; the rest after it)."""
    from harness import driver
    st = _state.setdefault(pid, {'t0': time.time(), 'failed': None, 'err': '', 'status': None, 'restore': False,
                                 'recompiled': [], 'wall': 0.0})
    t0 = time.time()
    lk = driver._lock()
    try:
        if st['failed']:
            return
        if st['status'] is None:
            had_good = all(os.path.exists(os.path.join(COQ, r)) for r in _stash_files(pid)) and \
                _first_stale(pid, 4) is None
            if had_good and not _stash_current(pid):
                _stash_save(pid)
            st['had_good'] = had_good
            st['status'] = main(quiet=True)
        status = st['status']
        mine = {k: v for k, v in status['errors'].items() if v['property'] == pid}
        first = _first_stale(pid, upto)
        if first is None and not mine:
            return
        if first is None:
            first = 1          # translation error of one of this property's functions, files otherwise fresh
        for rel in chain(pid)[first:upto]:
            rc, out, err = driver.coqc(rel, timeout=900)
            st['recompiled'].append(rel)
            if rc != 0:
                st['failed'] = rel
                st['err'] = (err or out)[-2500:]
                break
        if st['failed'] is None and upto == 4 and not mine:
            _stash_save(pid)
        if st['failed'] is not None and os.path.isdir(_stash_dir(pid)):
            st['restore'] = True
            atexit.register(_stash_restore, pid)
    finally:
        lk.close()
        st['wall'] += time.time() - t0


def extra_hook(ctx, pid):
    """findings of the source tie for the driver (run after the correspondence)"""
    from harness import driver
    st = _state.get(pid)
    if not st:
        return []
    status = st['status'] or {}
    mine_err = {k: v for k, v in status.get('errors', {}).items() if v['property'] == pid}
    info = {'info': True, 'what': 'source translation (harness/translate.py)',
            'functions': {k: v for k, v in status.get('functions', {}).items() if v['property'] == pid},
            'not_translated': mine_err, 'GenFuns_rewritten': status.get('changed'),
            'recompiled': st['recompiled'], 'wall_s': round(st['wall'], 2),
            'source_sha256': status.get('files')}
    out = [info]
    if st['failed'] or mine_err:
        theorems = ['%s_source_tie' % pid, '%s_source_translation_agrees' % pid] + \
                   ['%s_agrees' % f for f in PROP_FUNS[pid]]
        detail = {
            'theorems': theorems,
            'failing_file': st['failed'],
            'translator_errors': mine_err,
            'coqc_error_tail': st['err'],
            'meaning': 'the Gallina definitions regenerated from the Python source (coq/gen/GenFuns.v) are no longer '
                       'proved equal to the hand-written model the theorems of %s speak about: either the source left '
                       'the translated subset (translator_errors) or its behaviour changed (coqc_error_tail)' % pid,
        }
        # replays that the correspondence (or the property oracle) wrote in this run: name the theorem there
        pat = os.path.join(driver.VERIF, driver.REPLAY_DIR, '%s-%d-*.json' % (pid, ctx.seed))
        hit = []
        for p in sorted(glob.glob(pat)):
            base = os.path.basename(p)
            if not re.match(r'^%s-\d+-(corr|oracle)\d+\.json$' % pid, base) or os.path.getmtime(p) < st['t0']:
                continue
            try:
                rp = json.load(open(p))
                rp['source_tie'] = detail
                rp['theorems'] = sorted(set(list(rp.get('theorems', [])) + theorems))
                json.dump(rp, open(p, 'w'), indent=1, default=str)
                hit.append(base)
            except (OSError, ValueError):
                pass
        if hit:
            info['source_tie_failed'] = detail
            info['failing_input_replays'] = hit
        else:
            out.append(dict(detail, what='proof obligation %s_source_tie fails: %s' % (
                pid, 'translation failed (outside the subset)' if mine_err else 'coqc rejects ' + str(st['failed'])),
                theorem='%s_source_tie' % pid, case={}, suffix=' no-failing-input-found'))
    _stash_restore(pid)
    return out


if __name__ == '__main__':
    main()
