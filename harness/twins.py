"""Python twins of the rule families defined in coq/Model/Rules.v, the stopping predicates of
coq/Model/Engine.v, and helpers to emit them as Coq terms.  Part of the trusted glue: a wrong twin
shows up as a disagreement on the unchanged tree."""
import numpy as np


SENTINEL = 10 ** 15 + 7   # stands for "not an integer": makes the case disagree instead of silently truncating


def exact_int(x):
    """int(x) if x is integer-valued, else SENTINEL (a twin must not hide a non-integer state by truncating it
    the way the dtype cast would: the rule has to receive the row as stored)"""
    try:
        xi = int(x)
    except Exception:
        return SENTINEL
    return xi if xi == x else SENTINEL


def _vals1(n):
    return [exact_int(x) for x in np.asarray(n).ravel()]


def unmasked2(n):
    """row-major unmasked entries of a (possibly masked) 2D neighbourhood"""
    if isinstance(n, np.ma.MaskedArray):
        m = np.ma.getmaskarray(n)
        d = n.data
        return [exact_int(d[i][j]) for i in range(d.shape[0]) for j in range(d.shape[1]) if not m[i][j]]
    return [exact_int(x) for x in np.asarray(n).ravel()]


def nbhd2_obs(n):
    """(values, mask) of a 2D neighbourhood as nested lists"""
    if isinstance(n, np.ma.MaskedArray):
        return [[exact_int(x) for x in row] for row in n.data.tolist()], [[bool(x) for x in row] for row in np.ma.getmaskarray(n).tolist()]
    a = np.asarray(n)
    return [[exact_int(x) for x in row] for row in a.tolist()], [[False] * a.shape[1] for _ in range(a.shape[0])]


class Lin1:
    def __init__(self, ws, m):
        self.ws, self.m = ws, m

    def __call__(self, nbhd_arg, cell_arg, step_arg):
        n, c, t = nbhd_arg, cell_arg, step_arg   # deliberately not named (n, c, t): the rule must be called positionally
        return sum(w * x for w, x in zip(self.ws, _vals1(n))) % self.m


class LinCT1(Lin1):
    def __call__(self, nbhd_arg, cell_arg, step_arg):
        n, c, t = nbhd_arg, cell_arg, step_arg   # deliberately not named (n, c, t): the rule must be called positionally
        return (sum(w * x for w, x in zip(self.ws, _vals1(n))) + 3 * int(c) + 5 * int(t)) % self.m


class Lin2:
    def __init__(self, ws, m):
        self.ws, self.m = ws, m

    def __call__(self, nbhd_arg, cell_arg, step_arg):
        n, c, t = nbhd_arg, cell_arg, step_arg   # deliberately not named (n, c, t): the rule must be called positionally
        return sum(w * x for w, x in zip(self.ws, unmasked2(n))) % self.m


class LinCT2(Lin2):
    def __call__(self, nbhd_arg, cell_arg, step_arg):
        n, c, t = nbhd_arg, cell_arg, step_arg   # deliberately not named (n, c, t): the rule must be called positionally
        return (sum(w * x for w, x in zip(self.ws, unmasked2(n))) + 3 * int(c[0]) + 7 * int(c[1]) + 5 * int(t)) % self.m


class Aff1(Lin1):
    """pure affine rule (sum(w*x) + b) mod m: the all-zero neighbourhood maps to b mod m, not 0"""
    def __init__(self, ws, b, m):
        self.ws, self.b, self.m = ws, b, m

    def __call__(self, nbhd_arg, cell_arg, step_arg):
        n, c, t = nbhd_arg, cell_arg, step_arg   # deliberately not named (n, c, t): the rule must be called positionally
        return (sum(w * x for w, x in zip(self.ws, _vals1(n))) + self.b) % self.m


class Aff2(Lin2):
    def __init__(self, ws, b, m):
        self.ws, self.b, self.m = ws, b, m

    def __call__(self, nbhd_arg, cell_arg, step_arg):
        n, c, t = nbhd_arg, cell_arg, step_arg   # deliberately not named (n, c, t): the rule must be called positionally
        return (sum(w * x for w, x in zip(self.ws, unmasked2(n))) + self.b) % self.m


class Script:
    """the i-th call returns vs[i] (0 when exhausted)"""
    def __init__(self, vs):
        self.vs, self.i = vs, 0

    def __call__(self, nbhd_arg, cell_arg, step_arg):
        n, c, t = nbhd_arg, cell_arg, step_arg   # deliberately not named (n, c, t): the rule must be called positionally
        v = self.vs[self.i] if self.i < len(self.vs) else 0
        self.i += 1
        return v


class Logged1:
    """records (n, c, t) of every call of a 1D rule"""
    def __init__(self, f):
        self.f, self.log = f, []

    def __call__(self, nbhd_arg, cell_arg, step_arg):
        n, c, t = nbhd_arg, cell_arg, step_arg   # deliberately not named (n, c, t): the rule must be called positionally
        self.log.append((_vals1(n), int(c), int(t)))
        return self.f(n, c, t)


class Logged2:
    """records ((values, mask), (row, col), t) of every call of a 2D rule"""
    def __init__(self, f):
        self.f, self.log = f, []

    def __call__(self, nbhd_arg, cell_arg, step_arg):
        n, c, t = nbhd_arg, cell_arg, step_arg   # deliberately not named (n, c, t): the rule must be called positionally
        self.log.append((nbhd2_obs(n), (int(c[0]), int(c[1])), int(t)))
        return self.f(n, c, t)


def make_rule(spec, dim=1):
    """spec: {'fam': 'lin'|'linct'|'script', 'ws': [...], 'm': int, 'vs': [...]}"""
    fam = spec['fam']
    if fam == 'script':
        return Script(list(spec['vs']))
    if fam == 'aff':
        return (Aff1 if dim == 1 else Aff2)(list(spec['ws']), spec['b'], spec['m'])
    cls = {('lin', 1): Lin1, ('linct', 1): LinCT1, ('lin', 2): Lin2, ('linct', 2): LinCT2}[(fam, dim)]
    return cls(list(spec['ws']), spec['m'])


def coq_rule_spec(spec):
    """Coq term of type Corr rule_spec:  RLin ws m | RLinCT ws m | RScript vs  (defined in Model/Rules.v users)"""
    from harness.driver import czlist, cz
    if spec['fam'] == 'script':
        return '(RScript %s)' % czlist(spec['vs'])
    if spec['fam'] == 'aff':
        return '(RAff %s %s %s)' % (czlist(spec['ws']), cz(spec['b']), cz(spec['m']))
    return '(%s %s %s)' % ('RLin' if spec['fam'] == 'lin' else 'RLinCT', czlist(spec['ws']), cz(spec['m']))


# ---- stopping predicates (Model/Engine.v)
class PredLt:
    def __init__(self, k):
        self.k, self.log = k, []

    def __call__(self, history_arg, count_arg):
        ca, t = history_arg, count_arg   # deliberately not named (ca, t): the predicate must be called positionally
        self.log.append((np.asarray(ca).tolist(), int(t)))
        return t < self.k


class PredScript:
    def __init__(self, script):
        self.script, self.i, self.log = script, 0, []

    def __call__(self, history_arg, count_arg):
        ca, t = history_arg, count_arg   # deliberately not named (ca, t): the predicate must be called positionally
        self.log.append((np.asarray(ca).tolist(), int(t)))
        b = self.script[self.i] if self.i < len(self.script) else False
        self.i += 1
        return b


class PredLogged:
    """wraps any predicate (e.g. cpl.until_fixed_point()) and logs its arguments"""
    def __init__(self, f):
        self.f, self.log = f, []

    def __call__(self, history_arg, count_arg):
        ca, t = history_arg, count_arg   # deliberately not named (ca, t): the predicate must be called positionally
        self.log.append((np.asarray(ca).tolist(), int(t)))
        return self.f(ca, t)


# ---- rules that write into their argument (the property quantifies over all callables)
class Scribble:
    """computes v = f(n, c, t) FIRST, then overwrites its neighbourhood argument in place, returns v.
    A rule must receive its own copy of the neighbourhood: what later cells receive may not change.
    The model passes values, so the model-side rule is the underlying f.  Works for 1D arrays and for
    2D (possibly masked) neighbourhoods; read-only arguments are left alone."""
    def __init__(self, f, fill=77):
        self.f, self.fill = f, fill

    def __call__(self, nbhd_arg, cell_arg, step_arg):
        n, c, t = nbhd_arg, cell_arg, step_arg   # deliberately not named (n, c, t): the rule must be called positionally
        v = self.f(n, c, t)
        try:
            target = n.data if isinstance(n, np.ma.MaskedArray) else n
            target[...] = self.fill
        except (ValueError, TypeError, AttributeError):
            pass
        return v


# ---- "dressings": the same behaviour offered to the library as a differently shaped callable or return value.
# The properties quantify over ALL callables; a library that inspects the callable (signature, class, keyword
# names) or the type of what it returns must not change the result.  The model side ignores the dressing.
RULE_DRESSINGS = ['starargs', 'nrest', 'kwopts', 'defaults', 'partial', 'method', 'lambda',
                  'sub:BaseRule', 'sub:NKSRule', 'sub:BinaryRule', 'sub:TotalisticRule',
                  'ret0d', 'retnp', 'retpyint']
PRED_DRESSINGS = ['starargs', 'kwopts', 'defaults', 'partial', 'method', 'lambda']


def _ret_convert(how, v):
    if how == 'ret0d':
        return np.array(v)                      # zero-dimensional array: np.isscalar is False, int(v) works
    if how == 'retnp':
        try:
            return np.int64(v) if isinstance(v, (int, np.integer)) and not isinstance(v, bool) and -2 ** 63 <= int(v) < 2 ** 63 else v
        except Exception:
            return v
    if how == 'retpyint':
        return int(v) if isinstance(v, (np.integer,)) else v
    return v


def dress(f, how):
    """f: a rule callable taking (neighbourhood, cell, timestep) positionally.  Returns a callable with the
    same behaviour and the shape named by `how` (None / '' = f itself)."""
    if not how:
        return f
    if how in ('ret0d', 'retnp', 'retpyint'):
        def converted(nbhd_arg, cell_arg, step_arg):
            return _ret_convert(how, f(nbhd_arg, cell_arg, step_arg))
        return converted
    if how == 'starargs':
        def g(*args):
            return f(*args)
        return g
    if how == 'nrest':
        def g(first_arg, *rest):
            return f(first_arg, *rest)
        return g
    if how == 'kwopts':
        def g(nbhd_arg, cell_arg, step_arg, **opts):
            return f(nbhd_arg, cell_arg, step_arg)
        return g
    if how == 'defaults':
        def g(nbhd_arg, cell_arg=None, step_arg=None, scale=1):
            return f(nbhd_arg, cell_arg, step_arg)
        return g
    if how == 'partial':
        import functools
        return functools.partial(f)
    if how == 'lambda':
        return lambda *a: f(*a)
    if how == 'method':
        class Holder:
            def apply(self, nbhd_arg, cell_arg, step_arg):
                return f(nbhd_arg, cell_arg, step_arg)
        return Holder().apply
    if how.startswith('sub:'):
        import cellpylib as cpl            # the tree under test (the driver put it first on sys.path)
        base = how[4:]
        if base == 'BaseRule':
            class UserRule(cpl.BaseRule):
                def __call__(self, nbhd_arg, cell_arg, step_arg):
                    return f(nbhd_arg, cell_arg, step_arg)
            return UserRule()
        if base == 'NKSRule':
            class UserNKS(cpl.NKSRule):
                def __call__(self, nbhd_arg, cell_arg, step_arg):
                    return f(nbhd_arg, cell_arg, step_arg)
            return UserNKS(30)
        if base == 'BinaryRule':
            class UserBinary(cpl.BinaryRule):
                def __call__(self, nbhd_arg, cell_arg, step_arg):
                    return f(nbhd_arg, cell_arg, step_arg)
            return UserBinary(90)
        if base == 'TotalisticRule':
            class UserTotalistic(cpl.TotalisticRule):
                def __call__(self, nbhd_arg, cell_arg, step_arg):
                    return f(nbhd_arg, cell_arg, step_arg)
            return UserTotalistic(3, 777)
    raise ValueError('unknown dressing %r' % (how,))


def dress_pred(p, how):
    """p: a timesteps predicate taking (history, t) positionally; same idea as dress()."""
    if not how:
        return p
    if how == 'starargs':
        def g(*args):
            return p(*args)
        return g
    if how == 'kwopts':
        def g(history_arg, count_arg, **opts):
            return p(history_arg, count_arg)
        return g
    if how == 'defaults':
        def g(history_arg, count_arg=None, limit=None):
            return p(history_arg, count_arg)
        return g
    if how == 'partial':
        import functools
        return functools.partial(p)
    if how == 'lambda':
        return lambda *a: p(*a)
    if how == 'method':
        class Holder:
            def keep_going(self, history_arg, count_arg):
                return p(history_arg, count_arg)
        return Holder().keep_going
    raise ValueError('unknown predicate dressing %r' % (how,))


# ---- re-entrancy, aliasing return values, call forms (round 6)
class Reentrant:
    """runs `nested()` — a complete library call of its own, typically an evolution on a ring / grid of the SAME
    geometry and dtype with another rule — before and after computing v = f(n, c, t), and returns v.  A library
    that keeps per-geometry scratch buffers or module-level tables lets the nested call clobber the outer one.
    The model side is the underlying f (the nested call has no effect on the outer evolution)."""
    def __init__(self, f, nested):
        self.f, self.nested, self.depth = f, nested, 0

    def __call__(self, nbhd_arg, cell_arg, step_arg):
        if self.depth == 0:                # the nested evolution may use this very rule object: do not recurse further
            self.depth += 1
            try:
                self.nested()
                v = self.f(nbhd_arg, cell_arg, step_arg)
                self.nested()
            finally:
                self.depth -= 1
            return v
        return self.f(nbhd_arg, cell_arg, step_arg)


class ProjView1:
    """pure 1D rule returning cell k of its neighbourhood AS A ZERO-DIMENSIONAL VIEW of the argument (shares its
    memory): if the library re-uses the neighbourhood's buffer after the call, a stored result changes under its
    feet.  Model side: Lin with one-hot weights and a modulus above every cell value (cells must be >= 0)."""
    def __init__(self, k):
        self.k = k

    def __call__(self, nbhd_arg, cell_arg, step_arg):
        a = nbhd_arg if isinstance(nbhd_arg, np.ndarray) else np.asarray(nbhd_arg)
        return a[self.k:self.k + 1].reshape(())


class ProjView2:
    """2D counterpart of ProjView1: returns entry (i, j) of the (possibly masked) neighbourhood block as a 0-d view"""
    def __init__(self, i, j):
        self.i, self.j = i, j

    def __call__(self, nbhd_arg, cell_arg, step_arg):
        a = nbhd_arg.data if isinstance(nbhd_arg, np.ma.MaskedArray) else nbhd_arg
        return a[self.i:self.i + 1, self.j:self.j + 1].reshape(())


def invoke(fn, names, values, npos):
    """call fn with the first `npos` values positionally and the rest by keyword: the same call written the three
    ways a caller may write it (all positional, all keyword, mixed)."""
    return fn(*values[:npos], **dict(zip(names[npos:], values[npos:])))
